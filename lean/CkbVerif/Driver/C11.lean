import CkbVerif.Driver.Util
import CkbVerif.Model.Pool

/-! Line-protocol driver for C11 (protocol: harness/hnode/src/c11.rs). `ckbmodel C11 [fixF2] [fixPanic] [fixF3] [fixMid] [preF33]` (`preF33` = `check_and_record_ancestors` as it was before /repo 10e306f). -/
namespace CkbVerif.Driver.C11
open CkbVerif.Driver CkbVerif.Pool

structure St where
  txs : List Tx := []
  pool : Pool := {}

def insSorted (a : Nat) : List Nat → List Nat
  | [] => [a]
  | x :: l => if a ≤ x then a :: x :: l else x :: insSorted a l
def sortNat (l : List Nat) : List Nat := l.foldl (fun acc a => insSorted a acc) []
def showSet (l : List Nat) : String := showNatList (sortNat (dedup l))

def parsePt? (s : String) : Option OutPt :=
  match s.splitOn ":" with
  | [a, b] => do
    let a ← parseNat? a
    let b ← parseNat? b
    pure ⟨a, b⟩
  | _ => none

def parsePts? (s : String) : Option (List OutPt) :=
  if s = "-" then some [] else (s.splitOn ",").mapM parsePt?

def parseStatus? : String → Option Status
  | "p" => some .pending
  | "g" => some .gap
  | "r" => some .proposed
  | _ => none

def showStatus : Status → String
  | .pending => "p"
  | .gap => "g"
  | .proposed => "r"

def showW (w : W) : String := s!"{w.count},{w.size},{w.cycles},{w.fee}"

def ptKey (o : OutPt) : Nat := o.tx * 1000 + o.idx
def showPt (o : OutPt) : String := s!"{o.tx}:{o.idx}"

def joinOr (l : List String) : String := if l.isEmpty then "-" else ";".intercalate l

/-- sort by a Nat key (insertion sort; inputs are tiny) -/
def sortBy {α} (key : α → Nat) (l : List α) : List α :=
  l.foldl (fun acc a =>
    let rec ins : List α → List α
      | [] => [a]
      | x :: r => if key a ≤ key x then a :: x :: r else x :: ins r
    ins acc) []

def dumpLine (p : Pool) : String :=
  let es := (sortBy (fun (e : Entry) => e.tx.id) p.entries).map fun e =>
    s!"{e.tx.id}:{showStatus e.status}:{e.ts}:{showW e.anc}:{showW e.desc}"
  let ls := (sortBy (fun (kl : Nat × Links) => kl.1) p.links).map fun kl =>
    s!"{kl.1}:{showSet kl.2.parents}:{showSet kl.2.children}"
  let is := (sortBy (fun (kv : OutPt × Nat) => ptKey kv.1) p.inputs).map fun kv => s!"{showPt kv.1}>{kv.2}"
  let ds := (sortBy (fun (kv : OutPt × List Nat) => ptKey kv.1) p.deps).map fun kv => s!"{showPt kv.1}>{showSet kv.2}"
  let hs := (sortBy (fun (kv : Nat × List Nat) => kv.1) p.hdeps).map fun kv => s!"{kv.1}>{showNatList kv.2}"
  s!"n={p.entries.length} P={p.pending} G={p.gap} R={p.proposed} size={p.totalSize} cyc={p.totalCycles} E={joinOr es} L={joinOr ls} I={joinOr is} D={joinOr ds} H={joinOr hs}"

def showAdd : AddRes → String
  | .ok ev => s!"ok {showSet ev}"
  | .dup => "dup"
  | .rejAnc => "rej-anc"
  | .rejDbl => "rej-dbl"
  | .panic => "panic"

def showRbf : RbfRes → String
  | .ok c => s!"ok {showSet c}"
  | .unconfirmed => "rbf-unconfirmed"
  | .struct => "rbf-struct"
  | .dep => "rbf-dep"
  | .fee => "rbf-fee"

def showSubmit : SubmitRes → String
  | .ok r e l => s!"ok R={showSet r} E={showSet e} L={showSet l}"
  | .full r e l => s!"full R={showSet r} E={showSet e} L={showSet l}"
  | .rbf r => showRbf r
  | .dead => "dead"
  | .add r => s!"add-{showAdd r}"

def showSubmitCoarse : SubmitRes → String
  | .ok _ _ _ => "ok"
  | .full _ _ _ => "full"
  | .rbf _ => "rbf"
  | .dead => "dead"
  | .add .rejAnc => "rej-anc"
  | .add r => s!"add-{showAdd r}"

def findTx (s : St) (id : Nat) : Option Tx := s.txs.find? (·.id = id)

def sameSet (a b : List Nat) : Bool := sortNat (dedup a) == sortNat (dedup b)

def stepWith (fix fixP fix3 fixM fix33 : Bool) (s : St) (ts : List String) : St × String :=
  match ts with
  | ["cfg", a, b, c, d, e, ch] =>
    match parseNats? [a, b, c, d, e], parseNatList? ch with
    | some [a, b, c, d, e], some ch =>
      ({ txs := [], pool := { cfg := { maxAnc := a, maxSize := b, minFeeRate := c, minRbfRate := d, expiry := e, fixF2 := fix, fixPanic := fixP, fixF3 := fix3, fixMid := fixM, fixF33 := fix33 }, chain := ch } }, "ok")
    | _, _ => (s, "bad-op")
  | ["tx", id, ins, deps, hd, nout, size, cyc, fee] =>
    match parseNats? [id, nout, size, cyc, fee], parsePts? ins, parsePts? deps, parseNatList? hd with
    | some [id, nout, size, cyc, fee], some ins, some deps, some hd =>
      ({ s with txs := s.txs ++ [{ id := id, inputs := ins, deps := deps, hdeps := hd, nout := nout, size := size, cycles := cyc, fee := fee }] }, "ok")
    | _, _, _, _ => (s, "bad-op")
  | ["add", id, st, t] =>
    match (parseNat? id).bind (findTx s), parseStatus? st, parseNat? t with
    | some tx, some st, some t =>
      let r := addEntry s.pool tx st t
      ({ s with pool := r.1 }, showAdd r.2)
    | _, _, _ => (s, "bad-op")
  | ["rm", id] =>
    match parseNat? id with
    | some id =>
      let r := removeEntry s.pool id
      ({ s with pool := r.1 }, if r.2.isSome then "ok" else "none")
    | none => (s, "bad-op")
  | ["rmd", id] =>
    match parseNat? id with
    | some id =>
      let r := removeWithDesc s.pool id
      ({ s with pool := r.1 }, s!"ok {showSet (idsOf r.2)}")
    | none => (s, "bad-op")
  | ["set", id, st] =>
    match parseNat? id, parseStatus? st with
    | some id, some st =>
      if (getEntry s.pool id).isSome then ({ s with pool := setEntry s.pool id st }, "ok") else (s, "none")
    | _, _ => (s, "bad-op")
  | ["commit", id] =>
    match (parseNat? id).bind (findTx s) with
    | some tx =>
      let r := commitTx s.pool tx
      ({ s with pool := r.1 }, s!"ok {showSet r.2}")
    | none => (s, "bad-op")
  | ["hdr", hs] =>
    match parseNatList? hs with
    | some hs =>
      let r := resolveHeaders s.pool hs
      ({ s with pool := r.1 }, s!"ok {showSet r.2}")
    | none => (s, "bad-op")
  | ["limit"] =>
    let r := limitSize s.pool
    ({ s with pool := r.1 }, s!"ok {showSet r.2}")
  | ["expire", now, order] =>
    match parseNat? now, parseNatList? order with
    | some now, some order =>
      let ex := expiredIds s.pool now
      if sameSet ex order then
        ({ s with pool := removeExpired s.pool order }, s!"ok {showSet (removeExpiredIds s.pool order)}")
      else (s, s!"expired-set-differs {showSet ex}")
    | _, _ => (s, "bad-op")
  | ["detach", ids] =>
    match parseNatList? ids with
    | some ids => ({ s with pool := detachProposals s.pool ids }, "ok")
    | none => (s, "bad-op")
  | ["rbf", id] =>
    match (parseNat? id).bind (findTx s) with
    | some tx => (s, if enableRbf s.pool.cfg then showRbf (checkRbf s.pool tx) else "rbf-disabled")
    | none => (s, "bad-op")
  | ["submit", id, st, t] =>
    match (parseNat? id).bind (findTx s), parseStatus? st, parseNat? t with
    | some tx, some st, some t =>
      let r := submit s.pool tx st t
      ({ s with pool := r.1 }, showSubmit r.2)
    | _, _, _ => (s, "bad-op")
  | ["minfees"] =>
    if enableRbf s.pool.cfg then
      let es := (sortBy (fun (e : Entry) => e.tx.id) s.pool.entries).map fun e =>
        match minReplaceFeeOf s.pool e.tx.id with
        | some f => s!"{e.tx.id}={f}"
        | none => s!"{e.tx.id}=none"
      (s, s!"ok {joinOr es}")
    else (s, "rbf-disabled")
  | ["nsubmit", id, st, t] =>
    -- node level: TxPoolController::submit_local_tx; the answer is the coarse class of the Reject
    match (parseNat? id).bind (findTx s), parseStatus? st, parseNat? t with
    | some tx, some st, some t =>
      let r := submit s.pool tx st t
      ({ s with pool := r.1 }, showSubmitCoarse r.2)
    | _, _, _ => (s, "bad-op")
  | ["nnotify", id, st, t] =>
    -- node level: TxPoolController::notify_txs (verify queue worker): only pooled / not pooled is observable
    match (parseNat? id).bind (findTx s), parseStatus? st, parseNat? t with
    | some tx, some st, some t =>
      let r := submit s.pool tx st t
      ({ s with pool := r.1 }, match r.2 with | .ok _ _ _ => "ok" | _ => "rej")
    | _, _, _ => (s, "bad-op")
  | ["nblock", c, d, g, p, now, _q] =>
    -- node level: a block processed by the chain service -> update_tx_pool_for_reorg (attached only)
    match parseNatList? c, parseNatList? d, parseNatList? g, parseNatList? p, parseNat? now with
    | some c, some d, some g, some p, some now =>
      match c.mapM (findTx s) with
      | some ctx => ({ s with pool := updateForBlock s.pool ctx [] d g p now }, "ok")
      | none => (s, "bad-op")
    | _, _, _, _, _ => (s, "bad-op")
  | ["dump"] => (s, dumpLine s.pool)
  | _ => (s, "bad-op")

def main (args : List String) : IO UInt32 :=
  runLines ({} : St) (stepWith (args.contains "fixF2") (args.contains "fixPanic") (args.contains "fixF3") (args.contains "fixMid") (!args.contains "preF33"))

end CkbVerif.Driver.C11
