import CkbVerif.Driver.Util
namespace CkbVerif.Driver.C01
def main (_args : List String) : IO UInt32 := do
  IO.eprintln "C01: model driver not implemented"
  return 2
end CkbVerif.Driver.C01
