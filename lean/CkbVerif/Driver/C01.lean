import CkbVerif.Driver.Util
import CkbVerif.Model.Chain
import CkbVerif.Model.ChainStatus
import CkbVerif.Model.ChainSync

/-!
Line-protocol driver for C01 (and, with `crash` / `restart`, C08). Protocol (harness/n01/src/c01.rs):

  blk <id> <parent> <num> <epoch> <work> <nc> <ok>     declare a block (id 0 = genesis)    -> ok
  deliver <id> <hint|->      Deliver, then Verify until the queue is empty                  -> state line
  burst <ids>                every id delivered (serialised, no hint); final answer only    -> td=<n>
  crash                      drop the volatile state                                        -> state line
  crashdeliver <id> <k>      serialised delivery of <id> killed just before its k-th RocksDB commit
                             (k ≥ 1): the persisted state at that point, volatile state dropped   -> state line
  expire                     the orphan-expiry timer fires (`clean_expired_orphans`); the callbacks of the
                             removed orphans are dropped                      -> state line ++ " pool=<ids>"
  commits                    number of RocksDB commits the model has performed so far          -> <n>
  restart <maxEpochLen> <order|->   the model's `restart` (crash, then `scanList` re-delivered as
                             InitLoadUnverified does), then Verify until the queue is empty -> state line
  burststop <ids> <obs>      every id delivered WITHOUT verification, then some number v of verify steps,
                             then the process stops; <obs> = the persisted state line the harness observed
                             (spaces written as |): the answer is the persisted state of the v that equals
                             it (and the model continues from it), else that of v = 0       -> state line
  scan <maxEpochLen> <order|->      the scan list only                                      -> ids
  hdr <id>                   the sync layer's `insert_valid_header` (`Chain.xstep … (.headerValid id)`: written only
                             when the block's status is UNKNOWN)                             -> state line
  mark <id>                  the sync layer's `new_block_received` (`.markReceived id`: BLOCK_RECEIVED written only
                             when the status is exactly HEADER_VALID)                        -> state line
  Chain operations remove / overwrite these entries as `Chain.xstep` says (Model/ChainSync.lean); `st=` is `statusX`.

state line: cb=<id>:<new|known|err|drop>,… tip=<id> td=<n> orph=<k> stored=<ids> ext=<id>:<td>,… ver=<ids> inv=<ids> st=<letters>
  st: the answer of `Shared::get_block_status` (Model/ChainStatus.lean `blockStatus`) for every declared id in
  ascending order, one letter each (U H R S V I)
-/
namespace CkbVerif.Driver.C01
open CkbVerif.Driver CkbVerif.Chain

structure Decl where
  id : Nat
  parent : Nat
  num : Nat
  epoch : Nat
  work : Nat
  nc : Bool
  ok : Bool

structure St where
  decls : List Decl := []
  st : Option State := none
  /-- status-map entries BLOCK_RECEIVED / HeaderMap members written by the sync-layer operations -/
  recv : List Nat := []
  hdr : List Nat := []

def look (ds : List Decl) (b : Nat) : Option Decl := ds.find? (·.id == b)

def treeOf (ds : List Decl) : Tree :=
  { parent := fun b => match look ds b with | some d => d.parent | none => 0
    num := fun b => match look ds b with | some d => d.num | none => 0
    epoch := fun b => match look ds b with | some d => d.epoch | none => 0
    work := fun b => match look ds b with | some d => d.work | none => 0
    nc := fun b => match look ds b with | some d => d.nc | none => false
    ok := fun b => match look ds b with | some d => d.ok | none => false }

def verdictStr : Verdict → String
  | .okNew => "new" | .okKnown => "known" | .err => "err" | .dropped => "drop"

def verdictOrd : Verdict → Nat
  | .okNew => 0 | .okKnown => 1 | .err => 2 | .dropped => 3

def showList (l : List String) : String := if l.isEmpty then "-" else ",".intercalate l

def stateLineX (ds : List Decl) (recv hdr : List Nat) (s : State) (o : Out) : String :=
  let ids := (ds.map (·.id)).mergeSort (fun a b => a ≤ b)
  let cbs := o.mergeSort (fun a b => a.1 < b.1 || (a.1 == b.1 && verdictOrd a.2 ≤ verdictOrd b.2))
  let cb := showList (cbs.map fun (i, v) => s!"{i}:{verdictStr v}")
  let stored := showList ((ids.filter fun i => s.stored i).map toString)
  let ext := showList (ids.filterMap fun i => (s.td i).map fun t => s!"{i}:{t}")
  let ver := showList ((ids.filter fun i => s.ver i && (s.td i).isSome).map toString)
  let inv := showList ((ids.filter fun i => s.invalid i).map toString)
  let x : XState := { st := s, recv := fun b => recv.contains b, hdr := fun b => hdr.contains b }
  let st := String.join (ids.map fun i => (statusX x i).letter)
  s!"cb={cb} tip={s.tip} td={s.tipTd} orph={s.pool.length} stored={stored} ext={ext} ver={ver} inv={inv} st={st}"

def stateLine (ds : List Decl) (s : State) (o : Out) : String := stateLineX ds [] [] s o

/-- the chain code's writes to the two maps after the callbacks `o` (Model/ChainSync.lean `xstep`) -/
def afterChain (d : St) (o : Out) : St :=
  { d with recv := d.recv.filter (fun b => !(okIds o).contains b && !(errIds o).contains b),
           hdr := d.hdr.filter (fun b => !(okIds o).contains b) }

def getState (d : St) : State := match d.st with | some s => s | none => init (treeOf d.decls)

def bool? (s : String) : Option Bool := if s = "1" then some true else if s = "0" then some false else none

/-- the model's `restart` (crash + the start-up scan's deliveries), then the verify thread runs until
the queue is empty: the harness compares at quiescence -/
def doRestart (T : Tree) (mel : Nat) (order : List Nat) (s : State) : State × Out :=
  let r := (rstep T s (.restart mel order))
  drain T r.1.queue.length r.1 r.2

/-- the other extreme interleaving of the scan thread and the verify thread: every re-submitted block
is verified before the next one is handed over. The real node is somewhere between the two; the driver
answers with `doRestart` and flags a history on which the two extremes differ (none is known: the
deliveries of the scan never release pooled blocks and verification is FIFO either way). -/
def doRestartSerial (T : Tree) (mel : Nat) (order : List Nat) (s : State) : State × Out :=
  let s0 := crash s
  (scanList T mel order s0).foldl (fun (acc : State × Out) b =>
    let r := deliverQ T [] acc.1 b
    (r.1, acc.2 ++ r.2)) (s0, [])

/-- `burststop`: the ids are handed to the chain service one after the other WITHOUT waiting for
verification (`deliver`, no drain); the verify thread completes some number `v` of queue entries; the
process stops. The candidates are the persisted states for every `v`. -/
def burstStopCands (T : Tree) (s : State) (ids : List Nat) : List State :=
  let s1 := ids.foldl (fun s b => (deliver T [] s b).1) s
  (List.range (s1.queue.length + 1)).map fun v =>
    crash ((List.range v).foldl (fun s _ => (verifyHead T s).1) s1)

/-- the states between the individual RocksDB commits of one serialised delivery (each micro-step
of `deliver` / `verifyHead` performs at most one commit) -/
def microStates (T : Tree) (s : State) (b : Nat) : List State :=
  if b = 0 then [s] else
  let s' := { s with seen := upd s.seen b true }
  if !T.nc b then [s, { s' with invalid := upd s'.invalid b true }] else
  let s1 := { s' with stored := upd s'.stored b true, commits := s'.commits + 1 }
  let r := (route T s1 b).1
  let searchStates := (List.range (poolBound r.pool + 1)).foldl
    (fun (acc : (State × Out) × List State) c =>
      let n := stepPool T r.pool acc.1 c
      (n, acc.2 ++ [n.1])) ((r, []), [])
  let afterSearch := searchStates.1.1
  let drainStates := (List.range afterSearch.queue.length).foldl
    (fun (acc : State × List State) _ =>
      let n := (verifyHead T acc.1).1
      (n, acc.2 ++ [n])) (afterSearch, [])
  [s, s1, r] ++ searchStates.2 ++ drainStates.2

def step (d : St) (ts : List String) : St × String :=
  match ts with
  | ["blk", i, p, n, e, w, nc, ok] =>
    match parseNat? i, parseNat? p, parseNat? n, parseNat? e, parseNat? w, bool? nc, bool? ok with
    | some i, some p, some n, some e, some w, some nc, some ok =>
      ({ d with decls := d.decls ++ [{ id := i, parent := p, num := n, epoch := e, work := w, nc := nc, ok := ok }] }, "ok")
    | _, _, _, _, _, _, _ => (d, "bad-op")
  | ["deliver", i, h] =>
    match parseNat? i, parseNatList? h with
    | some i, some h =>
      let T := treeOf d.decls
      let r := deliverQ T h (getState d) i
      let d' := afterChain { d with st := some r.1 } r.2
      (d', stateLineX d.decls d'.recv d'.hdr r.1 r.2)
    | _, _ => (d, "bad-op")
  | ["burst", l] =>
    match parseNatList? l with
    | some l =>
      let T := treeOf d.decls
      let d' := l.foldl (fun (d : St) b => let r := deliverQ T [] (getState d) b; afterChain { d with st := some r.1 } r.2) d
      let s := getState d'
      ({ d' with st := some s }, s!"td={s.tipTd}")
    | none => (d, "bad-op")
  | ["crashdeliver", i, k] =>
    match parseNat? i, parseNat? k with
    | some i, some k =>
      let s := getState d
      match (microStates (treeOf d.decls) s i).find? (fun m => m.commits + 1 == s.commits + k) with
      | some m => let c := crash m; ({ d with st := some c, recv := [], hdr := [] }, stateLine d.decls c [])
      | none => (d, "bad-op")
    | _, _ => (d, "bad-op")
  | ["expire"] =>
    let s0 := getState d
    let s1 := expire (treeOf d.decls) s0
    let gone : Out := (s0.pool.filter fun c => !s1.pool.contains c).map fun c => (c, Verdict.dropped)
    let pool := showNatList (s1.pool.mergeSort (fun a b => a ≤ b))
    let keep := fun (b : Nat) => !(s0.pool.contains b && !s1.pool.contains b)
    let d' := { d with st := some s1, recv := d.recv.filter keep, hdr := d.hdr.filter keep }
    (d', stateLineX d.decls d'.recv d'.hdr s1 gone ++ s!" pool={pool}")
  | ["commits"] => (d, s!"{(getState d).commits}")
  | ["crash"] =>
    let s := crash (getState d)
    ({ d with st := some s, recv := [], hdr := [] }, stateLine d.decls s [])
  | ["burststop", l, obs] =>
    match parseNatList? l with
    | some l =>
      let cands := burstStopCands (treeOf d.decls) (getState d) l
      let want := obs.replace "|" " "
      match cands.find? (fun c => stateLine d.decls c [] == want) with
      | some c => ({ d with st := some c, recv := [], hdr := [] }, stateLine d.decls c [])
      | none =>
        match cands with
        | c :: _ => ({ d with st := some c, recv := [], hdr := [] }, stateLine d.decls c [])
        | [] => (d, "bad-op")
    | none => (d, "bad-op")
  | ["restart", m, o] =>
    match parseNat? m, parseNatList? o with
    | some m, some o =>
      let r := doRestart (treeOf d.decls) m o (getState d)
      let r' := doRestartSerial (treeOf d.decls) m o (getState d)
      let line := stateLine d.decls r.1 []
      let line' := stateLine d.decls r'.1 []
      ({ d with st := some r.1, recv := [], hdr := [] }, if line == line' then line else s!"interleaving-dependent {line} / {line'}")
    | _, _ => (d, "bad-op")
  | ["hdr", i] =>
    match parseNat? i with
    | some i =>
      let s := getState d
      let x : XState := { st := s, recv := fun b => d.recv.contains b, hdr := fun b => d.hdr.contains b }
      let x' := xstep (treeOf d.decls) x (.headerValid i)
      let d' := { d with st := some s, hdr := if x'.hdr i && !d.hdr.contains i then i :: d.hdr else d.hdr }
      (d', stateLineX d.decls d'.recv d'.hdr s [])
    | none => (d, "bad-op")
  | ["mark", i] =>
    match parseNat? i with
    | some i =>
      let s := getState d
      let x : XState := { st := s, recv := fun b => d.recv.contains b, hdr := fun b => d.hdr.contains b }
      let x' := xstep (treeOf d.decls) x (.markReceived i)
      let d' := { d with st := some s, recv := if x'.recv i && !d.recv.contains i then i :: d.recv else d.recv }
      (d', stateLineX d.decls d'.recv d'.hdr s [])
    | none => (d, "bad-op")
  | ["scan", m, o] =>
    match parseNat? m, parseNatList? o with
    | some m, some o => (d, showNatList (scanList (treeOf d.decls) m o (crash (getState d))))
    | _, _ => (d, "bad-op")
  | _ => (d, "bad-op")

def main (_args : List String) : IO UInt32 :=
  runLines ({} : St) step

end CkbVerif.Driver.C01
