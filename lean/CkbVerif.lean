-- Root of the CkbVerif library: models, generated tables, lemmas, property theorems.
-- Property modules are built individually by bin/check (`lake build CkbVerif.Props.Cnn`).
import CkbVerif.Driver.Util
