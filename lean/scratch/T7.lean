import CkbVerif.Model.Epoch
open CkbVerif.Arith CkbVerif.Epoch CkbVerif.Gen.Epoch
theorem enfPack_eq {n i l : Nat} (hn : n < 2 ^ EPOCH_NUMBER_BITS) (hi : i < 2 ^ EPOCH_INDEX_BITS) (hl : l < 2 ^ EPOCH_LENGTH_BITS) :
    enfPack n i l = l * 2 ^ 40 + i * 2 ^ 24 + n := by
  unfold enfPack LENGTH_OFFSET INDEX_OFFSET NUMBER_OFFSET U64
  simp only [EPOCH_NUMBER_BITS, EPOCH_INDEX_BITS, EPOCH_LENGTH_BITS, Nat.pow_zero, Nat.mul_one, Nat.reduceAdd] at *
  have h1 : l * 2 ^ 40 % 2 ^ 64 = l * 2 ^ 40 := by
    omega
  sorry
