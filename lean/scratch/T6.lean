import CkbVerif.Model.Epoch
open CkbVerif.Arith CkbVerif.Epoch CkbVerif.Gen.Epoch

theorem pow_accept_iff (compact hash : Nat) :
    powVerify compact hash = true ↔
      (compactToTarget compact).1 ≠ 0 ∧ (compactToTarget compact).2 = false ∧ hash ≤ (compactToTarget compact).1 := by
  unfold powVerify
  cases h : compactToTarget compact with
  | mk t ovf =>
    simp only
    cases ovf <;> by_cases ht : t = 0 <;> simp [ht] <;> omega

theorem lor_eq_add {a b k : Nat} (hb : b < 2 ^ k) : (a * 2 ^ k) ||| b = a * 2 ^ k + b := by
  rw [← Nat.shiftLeft_eq, Nat.shiftLeft_add_eq_or_of_lt hb]

theorem enfPack_eq {n i l : Nat} (hn : n < 2 ^ EPOCH_NUMBER_BITS) (hi : i < 2 ^ EPOCH_INDEX_BITS) (hl : l < 2 ^ EPOCH_LENGTH_BITS) :
    enfPack n i l = l * 2 ^ 40 + i * 2 ^ 24 + n := by
  unfold enfPack LENGTH_OFFSET INDEX_OFFSET NUMBER_OFFSET U64
  simp only [EPOCH_NUMBER_BITS, EPOCH_INDEX_BITS, EPOCH_LENGTH_BITS, Nat.pow_zero, Nat.mul_one, Nat.reduceAdd] at *
  have h1 : l * 2 ^ 40 % 2 ^ 64 = l * 2 ^ 40 := Nat.mod_eq_of_lt (by omega)
  have h2 : i * 2 ^ 24 % 2 ^ 64 = i * 2 ^ 24 := Nat.mod_eq_of_lt (by omega)
  have h3 : n % 2 ^ 64 = n := Nat.mod_eq_of_lt (by omega)
  have h4 : i * 2 ^ 24 < 2 ^ 40 := by omega
  rw [h1, h2, h3, lor_eq_add h4]
  have h5 : l * 2 ^ 40 + i * 2 ^ 24 = (l * 2 ^ 16 + i) * 2 ^ 24 := by omega
  rw [h5, lor_eq_add hn]

theorem enf_fields (v : Nat) :
    enfNumber v = v % 2 ^ 24 ∧ enfIndex v = v / 2 ^ 24 % 2 ^ 16 ∧ enfLength v = v / 2 ^ 40 % 2 ^ 16 := by
  unfold enfNumber enfIndex enfLength NUMBER_MASK INDEX_MASK LENGTH_MASK NUMBER_OFFSET INDEX_OFFSET LENGTH_OFFSET
  simp only [EPOCH_NUMBER_BITS, EPOCH_INDEX_BITS, EPOCH_LENGTH_BITS, Nat.and_two_pow_sub_one_eq_mod]
  simp

theorem enf_roundtrip {n i l : Nat} (hn : n < 2 ^ EPOCH_NUMBER_BITS) (hi : i < 2 ^ EPOCH_INDEX_BITS) (hl : l < 2 ^ EPOCH_LENGTH_BITS) :
    enfNumber (enfPack n i l) = n ∧ enfIndex (enfPack n i l) = i ∧ enfLength (enfPack n i l) = l := by
  obtain ⟨h1, h2, h3⟩ := enf_fields (enfPack n i l)
  rw [h1, h2, h3, enfPack_eq hn hi hl]
  simp only [EPOCH_NUMBER_BITS, EPOCH_INDEX_BITS, EPOCH_LENGTH_BITS] at *
  omega

theorem enf_pack_unpack {v : Nat} (hv : v < 2 ^ (EPOCH_NUMBER_BITS + EPOCH_INDEX_BITS + EPOCH_LENGTH_BITS)) :
    enfPack (enfNumber v) (enfIndex v) (enfLength v) = v := by
  obtain ⟨h1, h2, h3⟩ := enf_fields v
  rw [h1, h2, h3, enfPack_eq] <;> simp only [EPOCH_NUMBER_BITS, EPOCH_INDEX_BITS, EPOCH_LENGTH_BITS] at * <;> omega
