import CkbVerif.Props.C07
namespace CkbVerif.C07
open CkbVerif.Arith CkbVerif.Epoch CkbVerif.Gen.Epoch

theorem numberWithFraction_eq {e : EpochExt} {i : Nat} :
    numberWithFraction e (e.start + i) = some (enfPack e.number i e.length) := by
  unfold numberWithFraction subChk
  simp

/-- inside an epoch, the positions reported for consecutive block numbers are accepted by the
(non-contextual) `EpochVerifier` -/
theorem epoch_fields_consecutive_within (e : EpochExt) (i : Nat)
    (hn : e.number < 2 ^ EPOCH_NUMBER_BITS) (hl : e.length < 2 ^ EPOCH_LENGTH_BITS) (hi : i + 1 < e.length) :
    ∃ a b, numberWithFraction e (e.start + i) = some a ∧ numberWithFraction e (e.start + (i + 1)) = some b ∧
      epochVerify a b = .ok := by
  refine ⟨_, _, numberWithFraction_eq, numberWithFraction_eq, ?_⟩
  have hib : i < 2 ^ EPOCH_INDEX_BITS ∧ i + 1 < 2 ^ EPOCH_INDEX_BITS := by
    simp only [EPOCH_INDEX_BITS, EPOCH_LENGTH_BITS] at *; omega
  obtain ⟨a1, a2, a3⟩ := enf_roundtrip hn hib.1 hl
  obtain ⟨b1, b2, b3⟩ := enf_roundtrip hn hib.2 hl
  have hg : enfIsGenesis (enfPack e.number i e.length) = false := by
    unfold enfIsGenesis; rw [a3]; simp; omega
  rw [epoch_successor_iff_next_position _ _ hg, a1, a2, a3, b1, b2, b3]
  have : ¬ (i + 1 = e.length) := by omega
  simp only [this, if_false]
  exact ⟨⟨by omega, hi⟩, trivial, trivial, trivial⟩

/-- across an epoch boundary: the last block of epoch `e` and the first block of the epoch computed by
`next_epoch_ext` carry consecutive epoch fields -/
theorem epoch_fields_consecutive_across {P : Params} {e o : EpochExt} {hc u ms : Nat}
    (h : nextEpochExt P e (e.start + (e.length - 1)) hc u ms = some o)
    (hL : MIN_EPOCH_LENGTH ≤ e.length ∧ e.length ≤ MAX_EPOCH_LENGTH)
    (hn : e.number + 1 < 2 ^ EPOCH_NUMBER_BITS) :
    ∃ a b, numberWithFraction e (e.start + (e.length - 1)) = some a ∧
      numberWithFraction o (e.start + (e.length - 1) + 1) = some b ∧ epochVerify a b = .ok := by
  obtain ⟨h1, h2, _, _⟩ := next_len_bounds h hL
  obtain ⟨_, _, _, _, _, _, _, _, _, _, _, _, _, _, _, _, _, ho⟩ := nextEpochExt_some h
  have hnum : o.number = e.number + 1 := by rw [ho]
  have hst : o.start = e.start + (e.length - 1) + 1 := by rw [ho]
  have hmin : MIN_EPOCH_LENGTH = 300 := by decide
  have hmax : MAX_EPOCH_LENGTH = 1800 := by decide
  have hb : numberWithFraction o (e.start + (e.length - 1) + 1) = some (enfPack o.number 0 o.length) := by
    have := numberWithFraction_eq (e := o) (i := 0)
    rw [hst] at this; simpa using this
  refine ⟨_, _, numberWithFraction_eq, hb, ?_⟩
  simp only [EPOCH_NUMBER_BITS, EPOCH_INDEX_BITS, EPOCH_LENGTH_BITS] at *
  obtain ⟨a1, a2, a3⟩ := enf_roundtrip (n := e.number) (i := e.length - 1) (l := e.length)
    (by simp only [EPOCH_NUMBER_BITS]; omega) (by simp only [EPOCH_INDEX_BITS]; omega) (by simp only [EPOCH_LENGTH_BITS]; omega)
  obtain ⟨b1, b2, b3⟩ := enf_roundtrip (n := o.number) (i := 0) (l := o.length)
    (by simp only [EPOCH_NUMBER_BITS]; omega) (by simp only [EPOCH_INDEX_BITS]; omega) (by simp only [EPOCH_LENGTH_BITS]; omega)
  have hg : enfIsGenesis (enfPack e.number (e.length - 1) e.length) = false := by
    unfold enfIsGenesis; rw [a3]; simp; omega
  rw [epoch_successor_iff_next_position _ _ hg, a1, a2, a3, b1, b2, b3]
  have : e.length - 1 + 1 = e.length := by omega
  simp only [this, if_true]
  trace_state
  refine ⟨⟨by omega, by omega⟩, ?_, ?_⟩ <;> first | trivial | omega
end CkbVerif.C07
