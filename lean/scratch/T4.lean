import CkbVerif.Model.Epoch
open CkbVerif.Arith CkbVerif.Epoch CkbVerif.Gen.Epoch

/-- spec of the dampening filter -/
def clampSpec (hr prev : Nat) : Nat :=
  if prev = 0 then hr else max (prev / TAU) (min hr (prev * TAU))

theorem boundingHashRate_eq {hr prev r : Nat} (h : boundingHashRate hr prev = some r) :
    r = clampSpec hr prev := by
  unfold boundingHashRate chk256 chk at h
  unfold clampSpec
  by_cases hp : prev = 0
  · simp [hp] at h ⊢; omega
  · simp only [hp, if_false] at h ⊢
    have : prev / TAU ≤ prev * TAU := by simp only [TAU]; omega
    split at h
    · injection h with h; subst h; omega
    · simp only [Option.bind_eq_bind] at h
      split at h
      · simp only [Option.bind_some] at h
        split at h <;> (injection h with h; subst h; omega)
      · simp at h

theorem adjustedHashRate_some {diff L u dur prev adj : Nat} (h : adjustedHashRate diff L u dur prev = some adj) :
    dur ≠ 0 ∧ adj = max (clampSpec (diff * (L + u) / dur) prev) 1 := by
  unfold adjustedHashRate rawHashRate at h
  simp only [Option.bind_eq_bind, Option.bind_eq_some_iff, chk64, chk256, chk_eq_some, divChk_eq_some] at h
  obtain ⟨hr, ⟨blocks, ⟨_, hb⟩, prod, ⟨_, hp⟩, hd, hhr⟩, b, hb2, hadj⟩ := h
  subst hb hp hhr
  have := boundingHashRate_eq hb2
  injection hadj with hadj
  subst this
  exact ⟨hd, hadj.symm⟩

theorem nextLength_bounds {ort : URat} {T L u dur L' : Nat} {lor : URat} {b : Bool}
    (h : nextLength ort T L u dur lor = some (L', b))
    (hlo : MIN_EPOCH_LENGTH ≤ L * TAU) (hhi : L / TAU ≤ MAX_EPOCH_LENGTH) :
    MIN_EPOCH_LENGTH ≤ L' ∧ L' ≤ MAX_EPOCH_LENGTH ∧ L / TAU ≤ L' ∧ L' ≤ L * TAU := by
  sorry
