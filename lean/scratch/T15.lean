import CkbVerif.Model.Epoch
open CkbVerif.Arith CkbVerif.Epoch CkbVerif.Gen.Epoch

theorem block_epoch_stats_defined {hn start len tuH tuP tsH tsP : Nat}
    (hlen : 1 ≤ start + len) (hlt : start + len < U64) (htail : hn = start + len - 1)
    (hu : tuP ≤ tuH) (ht : tsP ≤ tsH) :
    getBlockEpoch hn start len tuH tuP tsH tsP = some (some (tuH - tuP, tsH - tsP)) := by
  unfold getBlockEpoch chk64 chk subChk
  simp [hlt, hlen, htail, hu, ht]

theorem epoch_duration_underflow_panics {hn start len tuH tuP tsH tsP : Nat}
    (htail : hn = start + len - 1) (ht : tsH < tsP) :
    getBlockEpoch hn start len tuH tuP tsH tsP = none := by
  unfold getBlockEpoch chk64 chk subChk
  have : ¬ (tsP ≤ tsH) := by omega
  by_cases h1 : start + len < U64 <;> by_cases h2 : 1 ≤ start + len <;> by_cases h3 : tuP ≤ tuH <;>
    simp [h1, h2, h3, htail, this]

def witness : List Nat := (List.range 37).map (· + 1) ++ [1000000] ++ (List.range 300).map (· + 38)

set_option maxRecDepth 100000 in
theorem timestamp_rule_allows_epoch_end_before_previous_epoch_end :
    chainTimestampsOk 37 [] witness = true ∧ witness.length = 338 ∧
      witness.getD 37 0 = 1000000 ∧ witness.getD 337 0 = 337 := by
  decide +kernel
