import CkbVerif.Model.Epoch
open CkbVerif.Arith CkbVerif.Epoch CkbVerif.Gen.Epoch

theorem boundingEpochLength_bounds {len L L' : Nat} {b : Bool}
    (h : boundingEpochLength len L = some (L', b))
    (hlo : MIN_EPOCH_LENGTH ≤ L * TAU) (hhi : L / TAU ≤ MAX_EPOCH_LENGTH) :
    MIN_EPOCH_LENGTH ≤ L' ∧ L' ≤ MAX_EPOCH_LENGTH ∧ L / TAU ≤ L' ∧ L' ≤ L * TAU := by
  sorry

theorem nextLength_bounds {ort : URat} {T L u dur L' : Nat} {lor : URat} {b : Bool}
    (h : nextLength ort T L u dur lor = some (L', b))
    (hlo : MIN_EPOCH_LENGTH ≤ L * TAU) (hhi : L / TAU ≤ MAX_EPOCH_LENGTH) :
    MIN_EPOCH_LENGTH ≤ L' ∧ L' ≤ MAX_EPOCH_LENGTH ∧ L / TAU ≤ L' ∧ L' ≤ L * TAU := by
  unfold nextLength at h
  split at h
  · simp only [Option.bind_eq_bind, Option.bind_eq_some_iff, chk64, chk_eq_some] at h
    obtain ⟨l2, ⟨_, hl2⟩, h⟩ := h
    injection h with h; injection h with h1 h2
    subst hl2 h1
    have : L / TAU ≤ L * TAU := by simp only [TAU]; omega
    have hmm : MIN_EPOCH_LENGTH ≤ MAX_EPOCH_LENGTH := by decide
    omega
  · simp only [Option.bind_eq_bind, Option.bind_eq_some_iff] at h
    obtain ⟨q, _, raw, _, h⟩ := h
    exact boundingEpochLength_bounds h hlo hhi
