import CkbVerif.Model.Epoch
open CkbVerif.Arith CkbVerif.Epoch CkbVerif.Gen.Epoch

theorem boundingEpochLength_bounds {len L L' : Nat} {b : Bool}
    (h : boundingEpochLength len L = some (L', b))
    (hlo : MIN_EPOCH_LENGTH ≤ L * TAU) (hhi : L / TAU ≤ MAX_EPOCH_LENGTH) :
    MIN_EPOCH_LENGTH ≤ L' ∧ L' ≤ MAX_EPOCH_LENGTH ∧ L / TAU ≤ L' ∧ L' ≤ L * TAU := by
  unfold boundingEpochLength chk64 chk at h
  simp only [Option.bind_eq_bind] at h
  split at h
  · simp only [Option.bind_some] at h
    have hmm : MIN_EPOCH_LENGTH ≤ MAX_EPOCH_LENGTH := by decide
    have hL : L / TAU ≤ L * TAU := by
      simp only [TAU]; omega
    split at h
    · injection h with h; injection h with h1 h2; subst h1; omega
    · split at h
      · injection h with h; injection h with h1 h2; subst h1; omega
      · injection h with h; injection h with h1 h2; subst h1; omega
  · simp at h

theorem boundingHashRate_clamped {hr prev r : Nat} (h : boundingHashRate hr prev = some r) (hp : prev ≠ 0) :
    prev / TAU ≤ r ∧ r ≤ prev * TAU := by
  unfold boundingHashRate chk256 chk at h
  simp only [hp, if_false] at h
  have : prev / TAU ≤ prev * TAU := by simp only [TAU]; omega
  split at h
  · injection h with h; subst h; omega
  · simp only [Option.bind_eq_bind] at h
    split at h
    · simp only [Option.bind_some] at h
      split at h <;> (injection h with h; subst h; omega)
    · simp at h
