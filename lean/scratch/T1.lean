import CkbVerif.Model.Epoch
open CkbVerif.Arith CkbVerif.Epoch CkbVerif.Gen.Epoch

theorem sum_indicator (base rem : Nat) : ∀ k, ((List.range k).map (fun i => base + if i < rem then 1 else 0)).sum = base * k + min k rem := by
  intro k
  induction k with
  | zero => simp
  | succ k ih =>
    rw [List.range_succ, List.map_append, List.sum_append, ih]
    simp only [List.map_cons, List.map_nil, List.sum_cons, List.sum_nil]
    split <;> simp [Nat.mul_succ] <;> omega

theorem blockReward_eq (e : EpochExt) (i : Nat) (h2 : e.start + e.rem < U64) (h3 : e.base + 1 < U64) :
    blockReward e (e.start + i) = some (e.base + if i < e.rem then 1 else 0) := by
  unfold blockReward safeAdd chk64 chk
  simp [h2, h3]
  split <;> simp_all <;> omega
