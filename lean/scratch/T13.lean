import CkbVerif.Lemmas.EpochCompact
namespace CkbVerif.Epoch
open CkbVerif.Arith CkbVerif.Gen.Epoch

theorem bitLen_mono {a b : Nat} (h : a ≤ b) : bitLen a ≤ bitLen b :=
  bitLen_le_of_lt (Nat.lt_of_le_of_lt h (bitLen_bounds b).1)

theorem truncTarget_mono {t1 t2 : Nat} (h : t1 ≤ t2) : truncTarget t1 ≤ truncTarget t2 := by
  have hb := bitLen_mono h
  by_cases hk : 8 * ((bitLen t1 + 7) / 8 - 3) = 8 * ((bitLen t2 + 7) / 8 - 3)
  · unfold truncTarget
    rw [hk]
    exact Nat.mul_le_mul_right _ (Nat.div_le_div_right h)
  · -- strictly more bytes: trunc t1 ≤ t1 < 256^(e2-1) ≤ trunc t2
    have he : (bitLen t1 + 7) / 8 + 1 ≤ (bitLen t2 + 7) / 8 ∧ 3 < (bitLen t2 + 7) / 8 := by omega
    have h1 : truncTarget t1 < 2 ^ (8 * ((bitLen t2 + 7) / 8 - 1)) :=
      Nat.lt_of_le_of_lt (truncTarget_le t1)
        (Nat.lt_of_lt_of_le (byteLen_bounds t1).1 (Nat.pow_le_pow_right (by decide) (by omega)))
    have ht2 : t2 ≠ 0 := by
      intro h0; subst h0; unfold bitLen at he; simp at he
    obtain ⟨_, hlo⟩ := (byteLen_bounds t2).2 ht2
    have hsplit : 2 ^ (8 * ((bitLen t2 + 7) / 8 - 1)) = 2 ^ 16 * 2 ^ (8 * ((bitLen t2 + 7) / 8 - 3)) := by
      rw [← Nat.pow_add]; congr 1; omega
    have hp : 0 < 2 ^ (8 * ((bitLen t2 + 7) / 8 - 3)) := Nat.pow_pos (by decide)
    have hq : 2 ^ 16 ≤ t2 / 2 ^ (8 * ((bitLen t2 + 7) / 8 - 3)) :=
      (Nat.le_div_iff_mul_le hp).mpr (by rw [← hsplit]; exact hlo)
    have h2 : 2 ^ (8 * ((bitLen t2 + 7) / 8 - 1)) ≤ truncTarget t2 := by
      unfold truncTarget; rw [hsplit]; exact Nat.mul_le_mul_right _ hq
    omega

/-- precision: the canonical encoding keeps at least the top 16 bits -/
theorem truncTarget_precision (t : Nat) : (t - truncTarget t) * 2 ^ 16 ≤ t := by
  by_cases h3 : (bitLen t + 7) / 8 ≤ 3
  · unfold truncTarget
    have : 8 * ((bitLen t + 7) / 8 - 3) = 0 := by omega
    rw [this]; simp
  · have ht : t ≠ 0 := by
      intro h0; subst h0; unfold bitLen at h3; simp at h3
    obtain ⟨_, hlo⟩ := (byteLen_bounds t).2 ht
    have hsplit : 2 ^ (8 * ((bitLen t + 7) / 8 - 1)) = 2 ^ (8 * ((bitLen t + 7) / 8 - 3)) * 2 ^ 16 := by
      rw [← Nat.pow_add]; congr 1; omega
    have hp : 0 < 2 ^ (8 * ((bitLen t + 7) / 8 - 3)) := Nat.pow_pos (by decide)
    have hm : t - truncTarget t < 2 ^ (8 * ((bitLen t + 7) / 8 - 3)) := by
      unfold truncTarget
      have h1 := Nat.div_add_mod t (2 ^ (8 * ((bitLen t + 7) / 8 - 3)))
      have h2 := Nat.mod_lt t hp
      rw [Nat.mul_comm] at h1
      omega
    have := Nat.mul_le_mul_right (2 ^ 16) (Nat.le_of_lt hm)
    rw [← hsplit] at this
    omega

end CkbVerif.Epoch
