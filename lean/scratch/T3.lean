import CkbVerif.Model.Epoch
open CkbVerif.Arith CkbVerif.Epoch CkbVerif.Gen.Epoch

theorem nextEpochExt_some {P : Params} {e o : EpochExt} {hn hc u ms : Nat}
    (h : nextEpochExt P e hn hc u ms = some o) :
    ∃ adj lor L' bound den nd R,
      adjustedHashRate (compactToDifficulty hc) e.length u (durationSecs ms) e.prevHR = some adj ∧
      URat.new u e.length = some lor ∧
      nextLength P.ort P.T e.length u (durationSecs ms) lor = some (L', bound) ∧
      diffDenominator P.ort P.T e.length (durationSecs ms) L' bound lor = some den ∧
      nextDiff adj P.T den = some nd ∧
      primaryRewardOfNext P e = some R ∧
      L' ≠ 0 ∧ e.number + 1 < U64 ∧ hn + 1 < U64 ∧
      difficultyToCompact nd = some o.compact ∧
      o = { number := e.number + 1, base := R / L', rem := R % L', prevHR := adj, start := hn + 1,
            length := L', compact := o.compact } := by
  unfold nextEpochExt at h
  simp only [Option.bind_eq_bind, Option.bind_eq_some_iff] at h
  obtain ⟨adj, h1, lor, h2, ⟨L', bound⟩, h3, den, h4, nd, h5, R, h6, base, h7, rem, h8, number, h9, start, h10, compact, h11, h12⟩ := h
  rw [divChk_eq_some] at h7
  rw [modChk_eq_some] at h8
  simp only [chk64, chk_eq_some] at h9 h10
  injection h12 with h12
  subst h12
  refine ⟨adj, lor, L', bound, den, nd, R, h1, h2, h3, h4, h5, h6, h7.1, h9.1, h10.1, h11, ?_⟩
  simp [h7.2, h8.2, h9.2, h10.2]
