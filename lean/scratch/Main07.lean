import CkbVerif.Driver.C07
def main (args : List String) : IO UInt32 := CkbVerif.Driver.C07.main args
