#check @Nat.lor_comm
#check @Nat.or_comm
open Nat in
#check @HOr.hOr
example (a b : Nat) : a ||| b = b ||| a := by exact?
