import CkbVerif.Lemmas.Epoch
namespace CkbVerif.Epoch
open CkbVerif.Arith CkbVerif.Gen.Epoch

theorem primaryReward_some {e : EpochExt} {R : Nat} (h : primaryReward e = some R) :
    R < U64 ∧ R = e.base * e.length + e.rem := by
  unfold primaryReward at h
  simp only [Option.bind_eq_bind, Option.bind_eq_some_iff, chk64, chk_eq_some] at h
  obtain ⟨p, ⟨_, hp⟩, hlt, hR⟩ := h
  subst hp; exact ⟨by omega, hR⟩

theorem primaryEpochReward_some {P : Params} {n R : Nat} (h : primaryEpochReward P n = some R) :
    P.halving ≠ 0 ∧ n / P.halving < 64 ∧ R = P.initial / 2 ^ (n / P.halving) := by
  unfold primaryEpochReward at h
  simp only [Option.bind_eq_bind, Option.bind_eq_some_iff, divChk_eq_some] at h
  obtain ⟨hh, ⟨h0, hh2⟩, h⟩ := h
  subst hh2
  split at h
  · injection h with h; exact ⟨h0, by assumption, h.symm⟩
  · simp at h

theorem primaryRewardOfNext_some {P : Params} {e : EpochExt} {R : Nat} (h : primaryRewardOfNext P e = some R) :
    e.number + 1 < U64 ∧
    ((isMultipleOf (e.number + 1) P.halving = false ∧ primaryReward e = some R) ∨
     (isMultipleOf (e.number + 1) P.halving = true ∧ primaryEpochReward P (e.number + 1) = some R)) := by
  unfold primaryRewardOfNext at h
  simp only [Option.bind_eq_bind, Option.bind_eq_some_iff, chk64, chk_eq_some] at h
  obtain ⟨n1, ⟨hlt, hn1⟩, h⟩ := h
  subst hn1
  refine ⟨hlt, ?_⟩
  cases hm : isMultipleOf (e.number + 1) P.halving <;> simp [hm] at h ⊢ <;> exact h
end CkbVerif.Epoch
