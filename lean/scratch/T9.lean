import CkbVerif.Lemmas.EpochNext
namespace CkbVerif.Epoch
open CkbVerif.Arith CkbVerif.Gen.Epoch

theorem primaryEpochReward_eq {P : Params} (n : Nat) (hh : P.halving ≠ 0) (hlt : n / P.halving < 64) :
    primaryEpochReward P n = some (P.initial / 2 ^ (n / P.halving)) := by
  unfold primaryEpochReward divChk
  simp [hh, hlt]

theorem succ_div_of_not_dvd {n h : Nat} (hh : h ≠ 0) (hm : (n + 1) % h ≠ 0) : (n + 1) / h = n / h := by
  have h1 := Nat.div_add_mod (n + 1) h
  have h2 := Nat.mod_lt (n + 1) (Nat.pos_of_ne_zero hh)
  symm
  apply Nat.div_eq_of_lt_le
  · rw [Nat.mul_comm]; omega
  · rw [Nat.add_mul, Nat.one_mul, Nat.mul_comm]; omega

/-- number/index/length of a well-formed successor are the next position -/
theorem enfIsSuccessorOf_iff (self pred : Nat) :
    enfIsSuccessorOf self pred = true ↔
      (if enfIndex pred + 1 = enfLength pred
        then enfNumber self = enfNumber pred + 1 ∧ enfIndex self = 0
        else enfNumber self = enfNumber pred ∧ enfIndex self = enfIndex pred + 1 ∧ enfLength self = enfLength pred) := by
  unfold enfIsSuccessorOf
  split <;> simp [and_assoc]

theorem epochVerify_ok_iff (parent header : Nat) :
    epochVerify parent header = .ok ↔
      enfIsWellFormed header = true ∧ (enfIsGenesis parent = true ∨ enfIsSuccessorOf header parent = true) := by
  unfold epochVerify
  cases enfIsWellFormed header <;> cases enfIsGenesis parent <;> cases enfIsSuccessorOf header parent <;> simp

end CkbVerif.Epoch
