import CkbVerif.Lemmas.Epoch
import CkbVerif.Lemmas.EpochCompact
namespace CkbVerif.Epoch
open CkbVerif.Arith CkbVerif.Gen.Epoch

/-- the value re-decoded from the canonical compact encoding of `t` -/
def truncTarget (t : Nat) : Nat := t / 2 ^ (8 * ((bitLen t + 7) / 8 - 3)) * 2 ^ (8 * ((bitLen t + 7) / 8 - 3))

theorem truncTarget_le (t : Nat) : truncTarget t ≤ t := Nat.div_mul_le_self _ _

theorem truncTarget_pos {t : Nat} (h : t ≠ 0) : truncTarget t ≠ 0 := by
  unfold truncTarget
  obtain ⟨_, h2⟩ := byteLen_bounds t
  obtain ⟨he, hlo⟩ := h2 h
  have hk : 2 ^ (8 * ((bitLen t + 7) / 8 - 3)) ≤ t :=
    Nat.le_trans (Nat.pow_le_pow_right (by decide) (by omega)) hlo
  have hp : 0 < 2 ^ (8 * ((bitLen t + 7) / 8 - 3)) := Nat.pow_pos (by decide)
  have : 1 ≤ t / 2 ^ (8 * ((bitLen t + 7) / 8 - 3)) := (Nat.le_div_iff_mul_le hp).mpr (by omega)
  have := Nat.mul_le_mul_right (2 ^ (8 * ((bitLen t + 7) / 8 - 3))) this
  omega

/-- `target_to_difficulty` / `difficulty_to_target` on a non-zero argument -/
def recip256 (t : Nat) : Nat := if t = 1 then U256 - 1 else U256 / t % U256

theorem targetToDifficulty_eq {t : Nat} (h : t ≠ 0) : targetToDifficulty t = some (recip256 t) := by
  unfold targetToDifficulty recip256 divChk
  by_cases h1 : t = 1 <;> simp [h1, h]

theorem difficultyToTarget_eq {d : Nat} (h : d ≠ 0) : difficultyToTarget d = some (recip256 d) := by
  unfold difficultyToTarget recip256 divChk
  by_cases h1 : d = 1 <;> simp [h1, h]

theorem recip256_eq {t : Nat} (h2 : 2 ≤ t) : recip256 t = U256 / t := by
  unfold recip256
  have : t ≠ 1 := by omega
  simp only [this, if_false]
  apply Nat.mod_eq_of_lt
  have : U256 / t ≤ U256 / 2 := Nat.div_le_div_left h2 (by decide)
  have : U256 / 2 < U256 := by decide
  omega

theorem recip256_bounds {t : Nat} (h0 : t ≠ 0) (ht : t < U256) : 1 ≤ recip256 t ∧ recip256 t < U256 := by
  by_cases h1 : t = 1
  · subst h1; unfold recip256 U256; simp
  · rw [recip256_eq (by omega)]
    constructor
    · exact (Nat.le_div_iff_mul_le (by omega)).mpr (by omega)
    · have : U256 / t ≤ U256 / 2 := Nat.div_le_div_left (by omega) (by decide)
      have : U256 / 2 < U256 := by decide
      omega

/-- a larger target is a smaller (or equal) difficulty -/
theorem recip256_antitone {t1 t2 : Nat} (h0 : t1 ≠ 0) (h : t1 ≤ t2) (ht : t2 < U256) : recip256 t2 ≤ recip256 t1 := by
  by_cases h1 : t1 = 1
  · subst h1
    have := (recip256_bounds (t := t2) (by omega) ht).2
    have h11 : recip256 1 = U256 - 1 := by unfold recip256; simp
    rw [h11]; omega
  · rw [recip256_eq (t := t1) (by omega), recip256_eq (t := t2) (by omega)]
    exact Nat.div_le_div_left h (by omega)

theorem compactToDifficulty_targetToCompact {t : Nat} (h0 : t ≠ 0) (ht : t < U256) :
    compactToDifficulty (targetToCompact t) = recip256 (truncTarget t) := by
  unfold compactToDifficulty
  have := compact_roundtrip_target ht
  simp only at this
  rw [this]
  have hp := truncTarget_pos h0
  unfold truncTarget at hp
  simp only [hp, Bool.or_false, decide_false, Bool.false_eq_true, if_false]
  rw [targetToDifficulty_eq hp]; rfl

/-- difficulty → compact → difficulty never yields zero and never decreases -/
theorem difficulty_roundtrip {d : Nat} (h0 : d ≠ 0) (hd : d < U256) :
    ∃ c, difficultyToCompact d = some c ∧ 1 ≤ compactToDifficulty c ∧ d ≤ compactToDifficulty c := by
  unfold difficultyToCompact
  rw [difficultyToTarget_eq h0]
  refine ⟨_, rfl, ?_⟩
  obtain ⟨hr1, hr2⟩ := recip256_bounds h0 hd
  have hne : recip256 d ≠ 0 := by omega
  rw [compactToDifficulty_targetToCompact hne hr2]
  have htp := truncTarget_pos hne
  have htl := truncTarget_le (recip256 d)
  have hb := recip256_bounds htp (by omega : truncTarget (recip256 d) < U256)
  refine ⟨hb.1, ?_⟩
  -- d ≤ recip256 (recip256 d) ≤ recip256 (trunc (recip256 d))
  have h1 : recip256 (recip256 d) ≤ recip256 (truncTarget (recip256 d)) := recip256_antitone htp htl hr2
  have h2 : d ≤ recip256 (recip256 d) := by
    by_cases hd1 : d = 1
    · subst hd1; exact (recip256_bounds hne hr2).1
    · rw [recip256_eq (t := d) (by omega)]
      have hdle : d ≤ U256 / 2 ∨ U256 / 2 < d := by omega
      rcases hdle with hdle | hdgt
      · have h2le : 2 ≤ U256 / d := (Nat.le_div_iff_mul_le (by omega)).mpr (by
          have := Nat.mul_le_mul_left 2 hdle
          have : 2 * (U256 / 2) = U256 := by decide
          omega)
        rw [recip256_eq h2le]
        exact (Nat.le_div_iff_mul_le (by omega)).mpr (by rw [Nat.mul_comm]; exact Nat.div_mul_le_self _ _)
      · have : U256 / d = 1 := by
          apply Nat.div_eq_of_lt_le <;> omega
        rw [this]; unfold recip256; simp; omega
  omega

end CkbVerif.Epoch
