import CkbVerif.Lemmas.Epoch
namespace CkbVerif.Epoch
open CkbVerif.Arith CkbVerif.Gen.Epoch

theorem bitLen_bounds (t : Nat) : t < 2 ^ bitLen t ∧ (t ≠ 0 → 2 ^ (bitLen t - 1) ≤ t) := by
  unfold bitLen
  split
  · rename_i h; subst h; simp
  · rename_i h
    refine ⟨Nat.lt_log2_self, fun _ => ?_⟩
    simpa using Nat.log2_self_le h

/-- byte length `e = ⌈bitLen/8⌉`: `t < 256^e`, and `256^(e-1) ≤ t` for `t ≠ 0` -/
theorem byteLen_bounds (t : Nat) :
    t < 2 ^ (8 * ((bitLen t + 7) / 8)) ∧ (t ≠ 0 → 1 ≤ (bitLen t + 7) / 8 ∧ 2 ^ (8 * ((bitLen t + 7) / 8 - 1)) ≤ t) := by
  obtain ⟨h1, h2⟩ := bitLen_bounds t
  constructor
  · exact Nat.lt_of_lt_of_le h1 (Nat.pow_le_pow_right (by decide) (by omega))
  · intro h0
    have hb : 1 ≤ bitLen t := by unfold bitLen; simp [h0]
    exact ⟨by omega, Nat.le_trans (Nat.pow_le_pow_right (by decide) (by omega)) (h2 h0)⟩

theorem bitLen_le_of_lt {t n : Nat} (h : t < 2 ^ n) : bitLen t ≤ n := by
  unfold bitLen
  split
  · omega
  · rename_i h0
    have := (Nat.log2_lt h0).mpr h
    omega

theorem and_mask (c : Nat) : c &&& COMPACT_MANTISSA_MASK = c % 2 ^ 24 := by
  have : COMPACT_MANTISSA_MASK = 2 ^ 24 - 1 := by decide
  rw [this, Nat.and_two_pow_sub_one_eq_mod]

/-- decoding a compact `m + e·2^24` with a 24-bit mantissa -/
theorem compactToTarget_mk {m e : Nat} (hm : m < 2 ^ 24) :
    compactToTarget (m + e * 2 ^ 24) =
      ((if e ≤ 3 then m / 2 ^ (8 * (3 - e)) else (m * 2 ^ (8 * (e - 3))) % U256),
       decide (m ≠ 0) && decide (e > 32)) := by
  unfold compactToTarget
  simp only [and_mask, COMPACT_EXPONENT_SHIFT, MANT_BYTES, COMPACT_MAX_EXPONENT]
  have h1 : (m + e * 2 ^ 24) / 2 ^ 24 = e := by omega
  have h2 : (m + e * 2 ^ 24) % 2 ^ 24 = m := by omega
  simp only [h1, h2]

/-- encoding: the compact form is `mantissa + e·2^24` with `e` the byte length -/
theorem targetToCompact_eq {t : Nat} (ht : t < U256) :
    let e := (bitLen t + 7) / 8
    e ≤ 32 ∧
    targetToCompact t = (if e ≤ 3 then t * 2 ^ (8 * (3 - e)) else t / 2 ^ (8 * (e - 3))) + e * 2 ^ 24 ∧
    (if e ≤ 3 then t * 2 ^ (8 * (3 - e)) else t / 2 ^ (8 * (e - 3))) < 2 ^ 24 := by
  intro e
  have hB : bitLen t ≤ 256 := bitLen_le_of_lt ht
  have he : e ≤ 32 := by show (bitLen t + 7) / 8 ≤ 32; omega
  obtain ⟨hlt, _⟩ := byteLen_bounds t
  have hmant : (if e ≤ 3 then t * 2 ^ (8 * (3 - e)) else t / 2 ^ (8 * (e - 3))) < 2 ^ 24 := by
    split
    · rename_i h3
      have : t * 2 ^ (8 * (3 - e)) < 2 ^ (8 * e) * 2 ^ (8 * (3 - e)) :=
        Nat.mul_lt_mul_of_pos_right hlt (Nat.pow_pos (by decide))
      rw [← Nat.pow_add] at this
      have h24 : 8 * e + 8 * (3 - e) = 24 := by omega
      rw [h24] at this; exact this
    · rename_i h3
      apply Nat.div_lt_of_lt_mul
      rw [← Nat.pow_add]
      have h24 : 8 * (e - 3) + 24 = 8 * e := by omega
      rw [h24]; exact hlt
  refine ⟨he, ?_, hmant⟩
  unfold targetToCompact
  simp only [COMPACT_EXPONENT_SHIFT, MANT_BYTES]
  show (((if e ≤ 24 / 8 then t % U64 * 2 ^ (8 * (24 / 8 - e)) % U64 else t / 2 ^ (8 * (e - 24 / 8)) % U64) |||
      e * 2 ^ 24 % U64) % U32) = _
  have h38 : 24 / 8 = 3 := by decide
  rw [h38]
  have hU : (2:Nat) ^ 24 < U64 := by decide
  have hmant64 : (if e ≤ 3 then t % U64 * 2 ^ (8 * (3 - e)) % U64 else t / 2 ^ (8 * (e - 3)) % U64)
      = (if e ≤ 3 then t * 2 ^ (8 * (3 - e)) else t / 2 ^ (8 * (e - 3))) := by
    split
    · rename_i h3
      simp only [h3, if_true] at hmant
      have hp : 0 < 2 ^ (8 * (3 - e)) := Nat.pow_pos (by decide)
      have ht64 : t < U64 := by
        have : t ≤ t * 2 ^ (8 * (3 - e)) := Nat.le_mul_of_pos_right t hp
        omega
      rw [Nat.mod_eq_of_lt ht64, Nat.mod_eq_of_lt (by omega)]
    · rename_i h3
      simp only [h3, if_false] at hmant
      rw [Nat.mod_eq_of_lt (by omega)]
  rw [hmant64]
  have he64 : e * 2 ^ 24 % U64 = e * 2 ^ 24 := Nat.mod_eq_of_lt (by unfold U64; omega)
  rw [he64, Nat.or_comm, lor_eq_add hmant, Nat.add_comm]
  apply Nat.mod_eq_of_lt
  unfold U32; omega

/-- `compact_roundtrip`: re-decoding the canonical encoding of a target returns the target with the
bits below its top three bytes cleared, never flags overflow, and the result is a fixed point. -/
theorem compact_roundtrip_target {t : Nat} (ht : t < U256) :
    let e := (bitLen t + 7) / 8
    let k := 8 * (e - 3)
    compactToTarget (targetToCompact t) = (t / 2 ^ k * 2 ^ k, false) := by
  intro e k
  obtain ⟨he, hc, hm⟩ := targetToCompact_eq ht
  rw [hc, compactToTarget_mk hm]
  have hov : (decide ((if (bitLen t + 7) / 8 ≤ 3 then t * 2 ^ (8 * (3 - (bitLen t + 7) / 8)) else t / 2 ^ (8 * ((bitLen t + 7) / 8 - 3))) ≠ 0) && decide ((bitLen t + 7) / 8 > 32)) = false := by
    have : ¬ ((bitLen t + 7) / 8 > 32) := by omega
    simp [this]
  rw [hov]
  congr 1
  show (if e ≤ 3 then (if e ≤ 3 then t * 2 ^ (8 * (3 - e)) else t / 2 ^ (8 * (e - 3))) / 2 ^ (8 * (3 - e))
        else (if e ≤ 3 then t * 2 ^ (8 * (3 - e)) else t / 2 ^ (8 * (e - 3))) * 2 ^ (8 * (e - 3)) % U256) = t / 2 ^ k * 2 ^ k
  by_cases h3 : e ≤ 3
  · simp only [h3, if_true]
    have hk : k = 0 := by show 8 * (e - 3) = 0; omega
    rw [hk, Nat.mul_div_cancel _ (Nat.pow_pos (by decide))]; simp
  · simp only [h3, if_false]
    apply Nat.mod_eq_of_lt
    exact Nat.lt_of_le_of_lt (Nat.div_mul_le_self t _) ht

end CkbVerif.Epoch
