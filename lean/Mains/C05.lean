import CkbVerif.Driver.C05

/-- `ckbmodel_c05 [args…]`: the executable model for property C05 (line protocol on stdin/stdout). -/
def main (args : List String) : IO UInt32 := CkbVerif.Driver.C05.main args
