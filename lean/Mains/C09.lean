import CkbVerif.Driver.C09

/-- `ckbmodel_c09 [args…]`: the executable model for property C09 (line protocol on stdin/stdout). -/
def main (args : List String) : IO UInt32 := CkbVerif.Driver.C09.main args
