import CkbVerif.Driver.C02

/-- `ckbmodel_c02 [args…]`: the executable model for property C02 (line protocol on stdin/stdout). -/
def main (args : List String) : IO UInt32 := CkbVerif.Driver.C02.main args
