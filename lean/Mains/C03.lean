import CkbVerif.Driver.C03

/-- `ckbmodel_c03 [args…]`: the executable model for property C03 (line protocol on stdin/stdout). -/
def main (args : List String) : IO UInt32 := CkbVerif.Driver.C03.main args
