import CkbVerif.Driver.C06

/-- `ckbmodel_c06 [args…]`: the executable model for property C06 (line protocol on stdin/stdout). -/
def main (args : List String) : IO UInt32 := CkbVerif.Driver.C06.main args
