import CkbVerif.Driver.C10

/-- `ckbmodel_c10 [args…]`: the executable model for property C10 (line protocol on stdin/stdout). -/
def main (args : List String) : IO UInt32 := CkbVerif.Driver.C10.main args
