import CkbVerif.Driver.C01

/-- `ckbmodel_c01 [args…]`: the executable model for property C01 (line protocol on stdin/stdout). -/
def main (args : List String) : IO UInt32 := CkbVerif.Driver.C01.main args
