import CkbVerif.Driver.C04

/-- `ckbmodel_c04 [args…]`: the executable model for property C04 (line protocol on stdin/stdout). -/
def main (args : List String) : IO UInt32 := CkbVerif.Driver.C04.main args
