import CkbVerif.Driver.C12

/-- `ckbmodel_c12 [args…]`: the executable model for property C12 (line protocol on stdin/stdout). -/
def main (args : List String) : IO UInt32 := CkbVerif.Driver.C12.main args
