import CkbVerif.Driver.C13

/-- `ckbmodel_c13 [args…]`: the executable model for property C13 (line protocol on stdin/stdout). -/
def main (args : List String) : IO UInt32 := CkbVerif.Driver.C13.main args
