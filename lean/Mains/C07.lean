import CkbVerif.Driver.C07

/-- `ckbmodel_c07 [args…]`: the executable model for property C07 (line protocol on stdin/stdout). -/
def main (args : List String) : IO UInt32 := CkbVerif.Driver.C07.main args
