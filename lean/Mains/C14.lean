import CkbVerif.Driver.C14

/-- `ckbmodel_c14 [args…]`: the executable model for property C14 (line protocol on stdin/stdout). -/
def main (args : List String) : IO UInt32 := CkbVerif.Driver.C14.main args
