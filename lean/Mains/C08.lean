import CkbVerif.Driver.C08

/-- `ckbmodel_c08 [args…]`: the executable model for property C08 (line protocol on stdin/stdout). -/
def main (args : List String) : IO UInt32 := CkbVerif.Driver.C08.main args
