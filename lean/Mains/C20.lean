import CkbVerif.Driver.C20

/-- `ckbmodel_c20 [args…]`: the executable model for property C20 (line protocol on stdin/stdout). -/
def main (args : List String) : IO UInt32 := CkbVerif.Driver.C20.main args
