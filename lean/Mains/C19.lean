import CkbVerif.Driver.C19

/-- `ckbmodel_c19 [args…]`: the executable model for property C19 (line protocol on stdin/stdout). -/
def main (args : List String) : IO UInt32 := CkbVerif.Driver.C19.main args
