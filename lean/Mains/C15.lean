import CkbVerif.Driver.C15

/-- `ckbmodel_c15 [args…]`: the executable model for property C15 (line protocol on stdin/stdout). -/
def main (args : List String) : IO UInt32 := CkbVerif.Driver.C15.main args
