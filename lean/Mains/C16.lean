import CkbVerif.Driver.C16

/-- `ckbmodel_c16 [args…]`: the executable model for property C16 (line protocol on stdin/stdout). -/
def main (args : List String) : IO UInt32 := CkbVerif.Driver.C16.main args
