import CkbVerif.Driver.C11

/-- `ckbmodel_c11 [args…]`: the executable model for property C11 (line protocol on stdin/stdout). -/
def main (args : List String) : IO UInt32 := CkbVerif.Driver.C11.main args
