import CkbVerif.Driver.C17

/-- `ckbmodel_c17 [args…]`: the executable model for property C17 (line protocol on stdin/stdout). -/
def main (args : List String) : IO UInt32 := CkbVerif.Driver.C17.main args
