import CkbVerif.Driver.C18

/-- `ckbmodel_c18 [args…]`: the executable model for property C18 (line protocol on stdin/stdout). -/
def main (args : List String) : IO UInt32 := CkbVerif.Driver.C18.main args
